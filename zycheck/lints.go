package main

// Property-agnostic bug-pattern lints, run for every property on the files
// its anchors name (properties.jsonl), so that an aliasing slip in, say, the
// hash code is reported under the hash property and not only under the
// property for which the lint was first written.

import (
	"bufio"
	"encoding/json"
	"fmt"
	"go/token"
	"go/types"
	"os"
	"path/filepath"
	"strings"

	"golang.org/x/tools/go/ssa"
)

// anchoredFiles: base names of the files listed in the property's anchors.
func (c *Ctx) anchoredFiles() map[string]bool {
	out := map[string]bool{}
	f, err := os.Open(filepath.Join(c.Verif, "properties.jsonl"))
	if err != nil {
		return out
	}
	defer f.Close()
	sc := bufio.NewScanner(f)
	sc.Buffer(make([]byte, 1<<22), 1<<22)
	for sc.Scan() {
		var p struct {
			ID      string `json:"id"`
			Anchors struct {
				Files []string `json:"files"`
			} `json:"anchors"`
		}
		if json.Unmarshal(sc.Bytes(), &p) != nil || p.ID != c.Prop {
			continue
		}
		for _, fn := range p.Anchors.Files {
			out[filepath.Base(fn)] = true
		}
	}
	return out
}

// genericLints runs after the property's own rules.
func (c *Ctx) genericLints() {
	if c.Prog == nil || !strings.HasPrefix(c.Prop, "C") {
		return
	}
	files := c.anchoredFiles()
	if len(files) == 0 {
		return
	}
	var scope []*ssa.Function
	for _, f := range c.zygoFuncs() {
		if files[c.fileOf(f)] {
			scope = append(scope, f)
		}
	}
	rule := c.Prop + "-LINT"
	nApp, nHoist := 0, 0
	for _, f := range scope {
		// (1) append on a loop-invariant base with the result retained
		eachInstr(f, func(b *ssa.BasicBlock, i int, in ssa.Instruction) {
			call, ok := in.(*ssa.Call)
			if !ok {
				return
			}
			bi, ok := call.Call.Value.(*ssa.Builtin)
			if !ok || bi.Name() != "append" || len(call.Call.Args) < 2 {
				return
			}
			loop := loopOf(b)
			if loop == nil {
				return
			}
			nApp++
			if definedOutside(call.Call.Args[0], loop) && escapes(call, 0) {
				c.bad(rule, fnName(f), "append on a loop-invariant slice, result retained", call.Pos(),
					"every iteration appends to the same slice value and keeps the result: with spare capacity the kept slices share one backing array and overwrite each other's last element")
			}
		})
		// (2) an object allocated once before a loop, filled and retained inside it
		eachInstr(f, func(b *ssa.BasicBlock, i int, in ssa.Instruction) {
			var obj ssa.Value
			switch x := in.(type) {
			case *ssa.Alloc:
				if x.Heap {
					obj = x
				}
			case *ssa.Call:
				if g := x.Call.StaticCallee(); g != nil && fnPkgPath(g) == "reflect" && g.Name() == "New" {
					obj = x
				}
			}
			if obj == nil || obj.Referrers() == nil {
				return
			}
			// retained inside a loop that does not contain the allocation
			for _, ref := range *obj.Referrers() {
				rb := ref.Block()
				loop := loopOf(rb)
				if loop == nil || loop[b] {
					continue
				}
				retained := false
				switch y := ref.(type) {
				case *ssa.Store:
					if y.Val == obj {
						switch y.Addr.(type) {
						case *ssa.IndexAddr, *ssa.FieldAddr:
							retained = true
						}
					}
				case *ssa.MapUpdate:
					retained = y.Value == obj
				case *ssa.Call:
					if bi, ok := y.Call.Value.(*ssa.Builtin); ok && bi.Name() == "append" {
						for _, a := range y.Call.Args[1:] {
							if a == obj {
								retained = true
							}
						}
					}
				case *ssa.MakeInterface:
					// boxed, then appended / stored / put in a map inside the loop
					if y.Referrers() != nil {
						for _, r2 := range *y.Referrers() {
							if !loop[r2.Block()] {
								continue
							}
							switch z := r2.(type) {
							case *ssa.MapUpdate:
								retained = retained || z.Value == ssa.Value(y)
							case *ssa.Call:
								if bi, ok := z.Call.Value.(*ssa.Builtin); ok && bi.Name() == "append" {
									retained = true
								}
							}
						}
					}
				}
				if !retained {
					continue
				}
				// and written inside the same loop (otherwise sharing one immutable object is harmless)
				written := false
				for _, r3 := range *obj.Referrers() {
					if !loop[r3.Block()] {
						continue
					}
					switch z := r3.(type) {
					case *ssa.FieldAddr, *ssa.IndexAddr:
						v := z.(ssa.Value)
						if v.Referrers() != nil {
							for _, r4 := range *v.Referrers() {
								if st, ok := r4.(*ssa.Store); ok && st.Addr == v {
									written = true
								}
							}
						}
					case *ssa.Store:
						if z.Addr == obj {
							written = true
						}
					}
				}
				nHoist++
				if written {
					c.bad(rule, fnName(f), "object allocated before a loop, filled and retained inside it", ref.Pos(),
						"one object is allocated outside the loop, written on every iteration and kept (appended, stored, cached) on every iteration: all kept references see the last iteration's contents")
				}
			}
		})
	}
	// (3) a symbol of one interpreter stored in process-global state: symbol numbers are per symbol table, so
	// a second interpreter (other builtins, other order of interning) reads the first one's number under its own table
	symT := c.named("SexpSymbol")
	nGlob := 0
	if symT != nil {
		isSymPtr := func(t types.Type) bool {
			p, ok := t.(*types.Pointer)
			if !ok {
				return false
			}
			n, ok := p.Elem().(*types.Named)
			return ok && n == symT
		}
		for _, f := range scope {
			if f.Name() == "init" || strings.HasPrefix(f.Name(), "init#") {
				continue
			}
			published := map[ssa.Value]bool{}
			eachInstr(f, func(b *ssa.BasicBlock, i int, in ssa.Instruction) {
				if st, ok := in.(*ssa.Store); ok {
					if _, isG := st.Addr.(*ssa.Global); isG {
						published[st.Val] = true
						nGlob++
						if isSymPtr(st.Val.Type()) && !isNilConst(st.Val) {
							c.bad(rule, fnName(f), "interpreter symbol stored in a package-level variable", st.Pos(),
								"a *SexpSymbol is stored in process-global state: its number belongs to one interpreter's symbol table, and every other interpreter of the process reads it under its own table")
						}
					}
				}
			})
			if len(published) == 0 {
				continue
			}
			eachInstr(f, func(b *ssa.BasicBlock, i int, in ssa.Instruction) {
				st, ok := in.(*ssa.Store)
				if !ok {
					return
				}
				fa, ok := st.Addr.(*ssa.FieldAddr)
				if !ok || !published[fa.X] {
					return
				}
				if isSymPtr(st.Val.Type()) && !isNilConst(st.Val) {
					c.bad(rule, fnName(f), "interpreter symbol stored in a package-level object", st.Pos(),
						"a *SexpSymbol is stored in an object that is published through a package-level variable: its number belongs to one interpreter's symbol table, and every other interpreter of the process reads it under its own table (the head it denotes there is some other symbol)")
				}
			})
		}
	}
	_ = nGlob
	c.ok(rule, "anchored files", "aliasing patterns", token.NoPos,
		fmt.Sprintf("%d functions of %d anchored files: %d appends inside loops and %d retained pre-loop allocations examined", len(scope), len(files), nApp, nHoist)).Trivial = true
}
