package main

import (
	"flag"
	"fmt"
	"os"
	"path/filepath"
	"runtime/debug"
	"sort"
	"strconv"
	"time"
)

const version = "zycheck 0.1"

type propDef struct {
	run     func(*Ctx)
	needSSA bool
}

var props = map[string]propDef{}

func register(id string, needSSA bool, run func(*Ctx)) { props[id] = propDef{run, needSSA} }

func init() {
	register("C08", true, checkC08)
	register("C19", true, checkC19)
	register("C14", true, checkC14)
	register("C13", true, checkC13)
	register("C05", true, checkC05)
	register("C20", true, checkC20)
	register("C07", true, checkC07)
	register("C17", true, checkC17)
	register("C18", true, checkC18)
	register("C16", true, checkC16)
	register("C01", true, checkC01)
	register("C06", true, checkC06)
	register("C12", true, checkC12)
	register("C11", true, checkC11)
	register("C10", true, checkC10)
	register("C09", true, checkC09)
	register("C04", true, checkC04)
	register("C02", true, checkC02)
	register("C15", true, checkC15)
	register("C03", true, checkC03)
	register("ES", false, checkES)
	register("IX", true, checkIXdebug)
}

func main() {
	prop := flag.String("prop", "", "property id")
	tier := flag.String("tier", "quick", "quick|thorough")
	repo := flag.String("repo", "/repo", "repository to analyse")
	verif := flag.String("verif", "", "verif directory (default: parent of the binary's directory)")
	out := flag.String("out", "", "directory for evidence and replay files (default <verif>/evidence)")
	dump := flag.Bool("dump", false, "print every obligation")
	ver := flag.Bool("version", false, "print version")
	list := flag.Bool("list", false, "list properties with rules built")
	flag.Parse()
	if *ver {
		fmt.Println(version)
		return
	}
	if *list {
		var ids []string
		for id := range props {
			ids = append(ids, id)
		}
		sort.Strings(ids)
		for _, id := range ids {
			fmt.Println(id)
		}
		return
	}
	if *verif == "" {
		exe, _ := os.Executable()
		*verif = filepath.Dir(filepath.Dir(exe))
	}
	def, ok := props[*prop]
	if !ok {
		die("no rules built for property %q", *prop)
	}
	seed := int64(0)
	if s := os.Getenv("VERIF_SEED"); s != "" {
		seed, _ = strconv.ParseInt(s, 10, 64)
	}
	if *out == "" {
		*out = filepath.Join(*verif, "evidence")
	}
	c := &Ctx{Dump: *dump, Out: *out, Prop: *prop, Tier: *tier, Seed: seed, Repo: *repo, Verif: *verif,
		keyCount: map[string]int{}, notes: map[string]interface{}{}, t0: time.Now()}
	defer func() {
		if r := recover(); r != nil {
			fmt.Printf("CHECK-ERROR internal panic in analyser: %v\n%s\n", r, debug.Stack())
			os.Exit(2)
		}
	}()
	c.loadTables()
	c.loadKnown()
	c.load(def.needSSA)
	def.run(c)
	c.genericLints()
	os.Exit(c.finish())
}
