package main

// rta.go: CG — modelled call graph.  A rapid-type-analysis style reachability
// over go/ssa with two refinements that x/tools' rta does not offer:
//   * flag pruning: inside a function, the successor of an `if` on a
//     configuration flag (ZlispConfig.Sandboxed, Zlisp.sandboxed, ...) that the
//     configuration under study makes impossible is not followed;
//   * every edge is kept with its call site so that a shortest path
//     root -> ... -> sink can be printed.
// Dynamic calls of function values resolve to the functions whose address is
// taken in *reachable* code and whose signature is identical (this is what
// makes `userfun` dispatch resolve to exactly the builtins registered in the
// configuration: the table constructors are the only places that take their
// address).  Interface invokes resolve to the methods of types converted to an
// interface in reachable code (plus types reachable from them by reflection,
// as in x/tools/go/callgraph/rta).

import (
	"go/token"
	"go/types"
	"sort"

	"golang.org/x/tools/go/ssa"
	"golang.org/x/tools/go/types/typeutil"
)

type rtaEdge struct {
	caller *ssa.Function
	callee *ssa.Function
	pos    token.Pos
	kind   string // static | dynamic | invoke | addr
}

type flagCond struct {
	field *types.Var
	value bool // value the flag has in the configuration under study
}

type RTA struct {
	prog        *ssa.Program
	flags       []flagCond
	noDesc      func(*ssa.Function) bool                       // functions whose bodies are not traversed (sinks)
	noAddrReach bool                                           // do not treat address-taken functions as reachable from the taker
	skipSite    func(f *ssa.Function, in ssa.Instruction) bool // call sites whose out-edges are not followed

	reach     map[*ssa.Function]*rtaEdge // first (BFS) edge by which a function was reached; root: edge with caller nil
	order     []*ssa.Function
	work      []*ssa.Function
	addrSig   typeutil.Map // signature -> []*ssa.Function (address taken in reachable code)
	dynSites  typeutil.Map // signature -> []*dynSite
	live      typeutil.Map // concrete type -> true
	liveList  []types.Type
	invokes   []*invSite
	edges     map[*ssa.Function][]*rtaEdge // all out edges
	pruned    int                          // number of blocks pruned by flags
	liveCache map[*ssa.Function]map[*ssa.BasicBlock]bool
	dynCalls  int
	invCalls  int
}

type dynSite struct {
	caller *ssa.Function
	pos    token.Pos
}
type invSite struct {
	caller *ssa.Function
	pos    token.Pos
	iface  *types.Interface
	method *types.Func
}

func newRTA(prog *ssa.Program, flags []flagCond, noDesc func(*ssa.Function) bool) *RTA {
	return &RTA{prog: prog, flags: flags, noDesc: noDesc,
		reach: map[*ssa.Function]*rtaEdge{}, edges: map[*ssa.Function][]*rtaEdge{}}
}

func (r *RTA) addRoot(f *ssa.Function) {
	if f == nil {
		return
	}
	r.reachFn(&rtaEdge{caller: nil, callee: f, kind: "root"})
}

func (r *RTA) reachFn(e *rtaEdge) {
	if e.caller != nil {
		r.edges[e.caller] = append(r.edges[e.caller], e)
	}
	if _, ok := r.reach[e.callee]; ok {
		return
	}
	r.reach[e.callee] = e
	r.order = append(r.order, e.callee)
	r.work = append(r.work, e.callee)
}

func (r *RTA) run() {
	for len(r.work) > 0 {
		f := r.work[0]
		r.work = r.work[1:]
		r.visit(f)
	}
}

// liveBlocks computes the blocks of f reachable from the entry when edges
// contradicted by the configuration flags are removed.
func (r *RTA) liveBlocks(f *ssa.Function) map[*ssa.BasicBlock]bool {
	if r.liveCache == nil {
		r.liveCache = map[*ssa.Function]map[*ssa.BasicBlock]bool{}
	}
	if l, ok := r.liveCache[f]; ok {
		return l
	}
	live := map[*ssa.BasicBlock]bool{}
	r.liveCache[f] = live
	if len(f.Blocks) == 0 {
		return live
	}
	var stack []*ssa.BasicBlock
	push := func(b *ssa.BasicBlock) {
		if !live[b] {
			live[b] = true
			stack = append(stack, b)
		}
	}
	push(f.Blocks[0])
	if f.Recover != nil {
		push(f.Recover)
	}
	for len(stack) > 0 {
		b := stack[len(stack)-1]
		stack = stack[:len(stack)-1]
		if len(b.Instrs) > 0 {
			if iff, ok := b.Instrs[len(b.Instrs)-1].(*ssa.If); ok {
				if v, known := r.flagValue(iff.Cond); known {
					if v {
						push(b.Succs[0])
					} else {
						push(b.Succs[1])
					}
					continue
				}
			}
		}
		for _, s := range b.Succs {
			push(s)
		}
	}
	for _, b := range f.Blocks {
		if !live[b] {
			r.pruned++
		}
	}
	return live
}

// flagValue evaluates cond if it is (a negation of) a direct load of a
// configuration flag field.
func (r *RTA) flagValue(cond ssa.Value) (bool, bool) {
	neg := false
	for {
		u, ok := cond.(*ssa.UnOp)
		if !ok {
			return false, false
		}
		if u.Op == token.NOT {
			neg = !neg
			cond = u.X
			continue
		}
		if u.Op == token.MUL {
			fa, ok := u.X.(*ssa.FieldAddr)
			if !ok {
				return false, false
			}
			st := fa.X.Type().Underlying().(*types.Pointer).Elem().Underlying().(*types.Struct)
			fld := st.Field(fa.Field)
			for _, fc := range r.flags {
				if fc.field == fld {
					return fc.value != neg, true
				}
			}
		}
		return false, false
	}
}

func (r *RTA) visit(f *ssa.Function) {
	if r.noDesc != nil && r.noDesc(f) {
		return
	}
	if len(f.Blocks) == 0 {
		return // external / assembly
	}
	live := r.liveBlocks(f)
	var rands [10]*ssa.Value
	for _, b := range f.Blocks {
		if !live[b] {
			continue
		}
		for _, instr := range b.Instrs {
			pos := instr.Pos()
			// address-taken functions: any operand that is a function value
			// other than the callee position of a static call.
			var calleeVal ssa.Value
			if ci, ok := instr.(ssa.CallInstruction); ok {
				cc := ci.Common()
				if !cc.IsInvoke() {
					calleeVal = cc.Value
				}
			}
			for _, op := range instr.Operands(rands[:0]) {
				if *op == nil {
					continue
				}
				if fn, ok := (*op).(*ssa.Function); ok {
					if fn == calleeVal {
						continue
					}
					r.addrTaken(f, fn, pos)
				}
			}
			switch in := instr.(type) {
			case *ssa.MakeClosure:
				r.addrTaken(f, in.Fn.(*ssa.Function), pos)
			case *ssa.MakeInterface:
				r.addLive(in.X.Type(), false)
			}
			if ci, ok := instr.(ssa.CallInstruction); ok {
				if r.skipSite != nil && r.skipSite(f, instr) {
					continue
				}
				cc := ci.Common()
				if cc.IsInvoke() {
					r.invCalls++
					it, _ := cc.Value.Type().Underlying().(*types.Interface)
					if it == nil {
						continue // type parameter; instantiated generics have none
					}
					s := &invSite{caller: f, pos: pos, iface: it, method: cc.Method}
					r.invokes = append(r.invokes, s)
					for _, T := range r.liveList {
						r.resolveInvoke(s, T)
					}
				} else if callee := cc.StaticCallee(); callee != nil {
					r.reachFn(&rtaEdge{caller: f, callee: callee, pos: pos, kind: "static"})
				} else if _, isBuiltin := cc.Value.(*ssa.Builtin); !isBuiltin {
					r.dynCalls++
					sig := cc.Value.Type().Underlying().(*types.Signature)
					s := &dynSite{caller: f, pos: pos}
					sites, _ := r.dynSites.At(sig).([]*dynSite)
					r.dynSites.Set(sig, append(sites, s))
					fns, _ := r.addrSig.At(sig).([]*ssa.Function)
					for _, g := range fns {
						r.reachFn(&rtaEdge{caller: f, callee: g, pos: pos, kind: "dynamic"})
					}
				}
			}
		}
	}
}

func (r *RTA) addrTaken(in *ssa.Function, fn *ssa.Function, pos token.Pos) {
	sig := fn.Signature
	// a bound/unbound method value keeps its receiver out of the signature
	// used at the call site; ssa wraps those in synthetic functions, so the
	// Signature of fn is already the one dynamic callers see.
	fns, _ := r.addrSig.At(sig).([]*ssa.Function)
	for _, g := range fns {
		if g == fn {
			return
		}
	}
	r.addrSig.Set(sig, append(fns, fn))
	sites, _ := r.dynSites.At(sig).([]*dynSite)
	for _, s := range sites {
		r.reachFn(&rtaEdge{caller: s.caller, callee: fn, pos: s.pos, kind: "dynamic"})
	}
	// Conservative: a function whose address is taken in reachable code may
	// also be called from code we do not see resolve precisely (callbacks
	// handed to the standard library through interfaces); record it as
	// reachable from the taker.
	if !r.noAddrReach {
		r.reachFn(&rtaEdge{caller: in, callee: fn, pos: pos, kind: "addr"})
	}
}

func (r *RTA) addLive(T types.Type, skip bool) {
	if r.live.At(T) != nil {
		return
	}
	r.live.Set(T, true)
	if !types.IsInterface(T) {
		if !skip {
			r.liveList = append(r.liveList, T)
			for _, s := range r.invokes {
				r.resolveInvoke(s, T)
			}
		}
	}
	// types reachable by reflection from a live type (as x/tools rta does)
	switch t := T.(type) {
	case *types.Named:
		r.addLive(t.Underlying(), true)
		// pointer receiver methods become callable via interface when *T is made an interface; handled when *T is live.
	case *types.Pointer:
		r.addLive(t.Elem(), false)
	case *types.Slice:
		r.addLive(t.Elem(), false)
	case *types.Array:
		r.addLive(t.Elem(), false)
	case *types.Chan:
		r.addLive(t.Elem(), false)
	case *types.Map:
		r.addLive(t.Key(), false)
		r.addLive(t.Elem(), false)
	case *types.Struct:
		for i := 0; i < t.NumFields(); i++ {
			r.addLive(t.Field(i).Type(), false)
		}
	case *types.Alias:
		r.addLive(types.Unalias(t), false)
	}
}

func (r *RTA) resolveInvoke(s *invSite, T types.Type) {
	if !types.Implements(T, s.iface) {
		return
	}
	ms := r.prog.MethodSets.MethodSet(T)
	sel := ms.Lookup(s.method.Pkg(), s.method.Name())
	if sel == nil {
		return
	}
	if fn := r.prog.MethodValue(sel); fn != nil {
		r.reachFn(&rtaEdge{caller: s.caller, callee: fn, pos: s.pos, kind: "invoke"})
	}
}

// pathTo returns the BFS-tree path root → ... → f as printable steps.
func (r *RTA) pathTo(c *Ctx, f *ssa.Function) []string {
	var rev []string
	seen := map[*ssa.Function]bool{}
	for f != nil && !seen[f] {
		seen[f] = true
		e := r.reach[f]
		if e == nil {
			break
		}
		if e.caller == nil {
			rev = append(rev, "root "+fnName(f))
			break
		}
		rev = append(rev, fnName(e.caller)+" --"+e.kind+"--> "+fnName(f)+"  ("+c.pos(e.pos)+")")
		f = e.caller
	}
	for i, j := 0, len(rev)-1; i < j; i, j = i+1, j-1 {
		rev[i], rev[j] = rev[j], rev[i]
	}
	return rev
}

func (r *RTA) reachableSorted() []*ssa.Function {
	out := append([]*ssa.Function(nil), r.order...)
	sort.Slice(out, func(i, j int) bool { return fnName(out[i]) < fnName(out[j]) })
	return out
}
