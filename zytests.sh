#!/bin/sh
# development helper (not a check): runs the repository's tests/*.zy scripts
# against a zygo binary built from /repo's working tree, in a scratch dir.
d=$(mktemp -d /tmp/zyt.XXXXXX)
( cd /repo && GOFLAGS=-mod=mod GOPROXY=off go build -o "$d/zygo" ./cmd/zygo ) || { rm -rf "$d"; exit 2; }
cp -r /repo/tests "$d/tests"
cd "$d" || exit 2
pass=0; fail=0
for f in tests/*.zy; do
  if timeout 60 "$d/zygo" -demo -exitonfail "$f" >"$d/out" 2>&1 </dev/null; then pass=$((pass+1)); else fail=$((fail+1)); echo "FAIL $f: $(tail -2 $d/out | tr '\n' ' ' | cut -c1-200)"; fi
done
echo "zy scripts: pass=$pass fail=$fail"
cd /; rm -rf "$d"
